package main

// C15 - targeters hand out each target exactly once under concurrent use.
//
// 1..64 goroutines draw concurrently from ONE targeter (barrier start, PRNG
// yields / short spins between draws). Every draw is recorded as
// (caller, call time, return time, target id | error) from one monotonic clock.
// Every input target carries a unique id from which its URL, a header and its
// body are derived, so a target mixed from two inputs is detectable.
//
//	stream targeters (http, JSON; @file bodies, long lines, peeked lines):
//	  lost-target / duplicate-target   multiset of returned targets == input
//	  torn-target                      every returned target equals one input target exactly
//	  target-after-exhaustion          no successful draw BEGINS after an ErrNoTargets draw RETURNED
//	  no-exhaustion / unexpected-error every caller ends on ErrNoTargets, no other error
//	static targeter:
//	  rotation-counts                  after n draws each of k targets was used floor(n/k)..ceil(n/k) times
//	  rotation-not-linearizable        the history is linearizable w.r.t. "i-th draw returns targets[i mod k]" (porcupine)
//	data-race                          the same workload under the race detector: no report with a vegeta frame
//
// All vegeta code runs in child processes (plain and -race build of this
// program); the parent only folds their reports. No wall-clock value decides a
// verdict: the oracle looks at recorded orders only (a draw's interval
// [call,return] contains the real operation, so both order checks are sound).

import (
	"encoding/json"
	"fmt"
	"hash/fnv"
	"io"
	"math/rand"
	"net/http"
	"os"
	"path/filepath"
	"runtime"
	"sort"
	"strconv"
	"strings"
	"sync"
	"sync/atomic"
	"time"

	"github.com/anishathalye/porcupine"
	vegeta "github.com/tsenart/vegeta/v12/lib"
	"verifharness/internal/ev"
)

func init() { register("C15", runC15) }

type c15Case struct {
	Idx      int    `json:"idx"`
	Kind     string `json:"kind"`        // http | json | static | static-large
	Seed     int64  `json:"seed,string"` // as a string: a child's report passes through float64 in the parent
	Pace     string `json:"pace"`        // mixed | tight | lockstep | hot-tight | hot-lockstep: what callers do between two draws
	N        int    `json:"n"`           // stream: targets in the input; static: draws per caller
	K        int    `json:"k"`           // static: number of targets
	Callers  int    `json:"callers"`     // concurrent goroutines
	Extra    int    `json:"extra"`       // stream: further draws of each caller after its first ErrNoTargets
	Files    bool   `json:"files"`       // http: bodies come from @files
	Long     bool   `json:"long"`        // some lines longer than bufio's default buffer (4096)
	Defaults bool   `json:"defaults"`
}

type c15Event struct {
	Caller int            `json:"c"`
	Call   int64          `json:"t0"` // ns since the start of the history, read before the draw
	Ret    int64          `json:"t1"` // read after the draw returned
	ID     int            `json:"id"` // input target the returned target equals exactly; -1 none
	Err    string         `json:"err,omitempty"`
	Diff   string         `json:"diff,omitempty"` // why a returned target is no input target
	Got    *vegeta.Target `json:"got,omitempty"`  // kept only with Diff
	tgt    *vegeta.Target
}

const c15NoTargets = "ErrNoTargets"

// ---- case list -------------------------------------------------------------

func c15Cases(c *Ctx) []c15Case {
	r := c.Rand("cases")
	n := c.Pick(4800, 60000)
	out := make([]c15Case, 0, n)
	callers := func(max int) int {
		switch r.Intn(4) {
		case 0:
			return 1 + r.Intn(3)
		case 1:
			return 2 + r.Intn(7)
		default:
			return 1 + r.Intn(max)
		}
	}
	for i := 0; i < n; i++ {
		cs := c15Case{Idx: i, Seed: r.Int63(), Pace: []string{"mixed", "tight", "tight", "lockstep", "lockstep"}[r.Intn(5)]}
		switch x := i % 12; {
		case x < 5: // rotation histories for porcupine: <= 16 callers x <= 12 draws, k <= 7
			cs.Kind = "static"
			cs.K = 1 + r.Intn(7)
			cs.Pace = []string{"mixed", "tight", "lockstep", "lockstep", "hot-tight", "hot-lockstep"}[r.Intn(6)]
			cs.Callers, cs.N = 1+r.Intn(16), 1+r.Intn(12)
			if r.Intn(10) < 7 { // mostly towards the upper end: short histories of few callers rarely overlap
				cs.Callers, cs.N = 4+r.Intn(13), 6+r.Intn(7)
			}
		case x == 5:
			cs.Kind = "static-large"
			cs.K = 1 + r.Intn(50)
			cs.Callers = callers(64)
			cs.N = 1 + r.Intn(200)
		default:
			cs.Kind = "http"
			if x%2 == 0 {
				cs.Kind = "json"
			}
			cs.Callers = callers(64)
			switch r.Intn(5) {
			case 0:
				cs.N = r.Intn(4)
			case 1, 2:
				cs.N = 1 + r.Intn(60)
			default:
				cs.N = 1 + r.Intn(300)
			}
			cs.Extra = r.Intn(3)
			cs.Files = cs.Kind == "http" && r.Intn(5) > 0
			cs.Long = r.Intn(4) == 0
			cs.Defaults = r.Intn(2) == 0
		}
		out = append(out, cs)
	}
	return out
}

// ---- inputs ----------------------------------------------------------------

type c15Input struct {
	text    string
	want    []vegeta.Target
	byURL   map[string]int
	defHdr  http.Header
	defBody []byte
	path    string   // when set: the stream targeters read the input from this file, as the attack command does
	src     *os.File // the open file of the running history
}

func c15Tag(cs *c15Case, id int) string {
	return fmt.Sprintf("%08x-%d", uint32(cs.Seed), id)
}

func c15Build(cs *c15Case, dir string) (*c15Input, error) {
	r := rand.New(rand.NewSource(cs.Seed))
	in := &c15Input{byURL: map[string]int{}}
	n := cs.N
	if cs.Kind == "static" || cs.Kind == "static-large" {
		n = cs.K
	}
	if cs.Defaults {
		in.defHdr = http.Header{"X-Default": []string{"dflt"}}
		in.defBody = []byte("default-body")
	}
	methods := []string{"GET", "POST", "PUT", "DELETE", "PATCH"}
	var sb strings.Builder
	prevBlank := true
	for id := 0; id < n; id++ {
		tag := c15Tag(cs, id)
		t := c14Target{Method: methods[id%len(methods)], URL: fmt.Sprintf("http://h%d.test/%s?id=%d", id, tag, id)}
		bare := r.Intn(4) == 0 && cs.Kind != "static" && cs.Kind != "static-large"
		if !bare {
			t.Hdr = append(t.Hdr, c14KV{"X-Id", tag})
			if r.Intn(2) == 0 {
				pad := r.Intn(40)
				if cs.Long && r.Intn(6) == 0 {
					pad = 4200 + r.Intn(5000)
				}
				t.Hdr = append(t.Hdr, c14KV{fmt.Sprintf("X-Pad-%d", id), strings.Repeat("p", pad) + tag})
			}
			if r.Intn(3) == 0 {
				t.Hdr = append(t.Hdr, c14KV{"X-Id", "second-" + tag})
			}
			if (cs.Kind != "http" || cs.Files) && r.Intn(3) > 0 {
				t.Body = []byte("body-" + tag + "-" + strings.Repeat("b", r.Intn(64)))
				if cs.Long && r.Intn(8) == 0 {
					t.Body = append(t.Body, []byte(strings.Repeat(tag, 400+r.Intn(300)))...)
				}
			}
		}
		want := vegeta.Target{Method: t.Method, URL: t.URL, Header: http.Header{}}
		if cs.Kind == "http" || cs.Kind == "json" {
			for k, vs := range in.defHdr {
				want.Header[k] = append([]string(nil), vs...)
			}
			want.Body = in.defBody
		}
		for _, kv := range t.Hdr {
			want.Header[kv.K] = append(want.Header[kv.K], kv.V)
		}
		if len(t.Body) > 0 {
			want.Body = t.Body
		}
		in.want = append(in.want, want)
		in.byURL[t.URL] = id
		switch cs.Kind {
		case "json":
			sb.WriteString(c14JSONLine(&t, 0) + "\n")
			if r.Intn(8) == 0 {
				sb.WriteString("\n")
			}
		case "http":
			if r.Intn(10) == 0 && prevBlank { // never between two consecutive request lines (known C14 defect)
				sb.WriteString("# target " + tag + "\n")
			}
			sb.WriteString(t.Method + " " + t.URL + "\n")
			for j, kv := range t.Hdr {
				if j > 0 && r.Intn(10) == 0 {
					sb.WriteString("# a comment between headers\n")
				}
				sb.WriteString(kv.K + ": " + kv.V + "\n")
			}
			if len(t.Body) > 0 {
				name := filepath.Join(dir, fmt.Sprintf("body-%d.bin", id))
				if err := os.WriteFile(name, t.Body, 0o644); err != nil {
					return nil, err
				}
				sb.WriteString("@" + name + "\n")
			}
			prevBlank = false
			if !bare || r.Intn(2) == 0 { // a bare request line may be followed directly by the next one
				sb.WriteString("\n")
				prevBlank = true
			}
		}
	}
	in.text = sb.String()
	if cs.Idx%3 == 2 && (cs.Kind == "http" || cs.Kind == "json") {
		// every third stream history reads from an *os.File (an io.Closer, like the attack command's
		// targets file or stdin) instead of an in-memory reader
		f, err := os.CreateTemp(dir, "c15-input-*")
		if err != nil {
			return nil, err
		}
		_, werr := f.WriteString(in.text)
		if cerr := f.Close(); werr != nil || cerr != nil {
			return nil, fmt.Errorf("cannot write the input file: %v %v", werr, cerr)
		}
		in.path = f.Name()
	}
	return in, nil
}

func (in *c15Input) targeter(cs *c15Case) vegeta.Targeter {
	var src io.Reader = strings.NewReader(in.text)
	if in.path != "" {
		if f, err := os.Open(in.path); err == nil {
			in.src, src = f, f
		}
	}
	switch cs.Kind {
	case "http":
		return vegeta.NewHTTPTargeter(src, in.defBody, in.defHdr)
	case "json":
		return vegeta.NewJSONTargeter(src, in.defBody, in.defHdr)
	default:
		return vegeta.NewStaticTargeter(in.want...)
	}
}

// ---- one concurrent history ------------------------------------------------

var c15Sink atomic.Int64

// c15Progress counts returned draws (all histories of the process); the deadlock detector reads it.
var c15Progress atomic.Int64

// c15Jitter separates two draws of a caller: nothing (tight loop), a yield, or
// a short local spin. tight callers (decided per caller from the case seed)
// mostly hammer the targeter.
func c15Jitter(r *rand.Rand, tight bool) {
	x := r.Intn(8)
	if tight && x >= 2 {
		return
	}
	switch x {
	case 0, 4, 5:
	case 1, 6:
		runtime.Gosched()
	case 2:
		n, acc := r.Intn(40), 0
		for i := 0; i < n; i++ {
			acc += i ^ n
		}
		if acc == -1 {
			c15Sink.Add(1)
		}
	case 3:
		n, acc := r.Intn(1500), 0
		for i := 0; i < n; i++ {
			acc += i ^ n
		}
		if acc == -1 {
			c15Sink.Add(1)
		}
	case 7:
		runtime.Gosched()
		runtime.Gosched()
	}
}

func c15Draw(tr vegeta.Targeter, t *vegeta.Target) (err error, pan any) {
	defer func() {
		if r := recover(); r != nil {
			pan = r
		}
	}()
	return tr(t), nil
}

// c15Barrier is a reusable barrier that callers may leave for good. Waiters are
// released by closing a channel, so they do not queue up on a mutex on the way out.
type c15Barrier struct {
	mu          sync.Mutex
	need, count int
	ch          chan struct{}
}

func (b *c15Barrier) release() {
	ch := b.ch
	b.count, b.ch = 0, make(chan struct{})
	close(ch)
}

func (b *c15Barrier) wait() {
	b.mu.Lock()
	ch := b.ch
	b.count++
	if b.count >= b.need {
		b.release()
	}
	b.mu.Unlock()
	<-ch
}

func (b *c15Barrier) leave() {
	b.mu.Lock()
	b.need--
	if b.count > 0 && b.count >= b.need {
		b.release()
	}
	b.mu.Unlock()
}

// c15Run executes the history and returns the per-caller event lists merged
// (in caller order; each caller's events are in program order).
func c15Run(cs *c15Case, in *c15Input) []c15Event {
	tr := in.targeter(cs)
	static := cs.Kind == "static" || cs.Kind == "static-large"
	per := make([][]c15Event, cs.Callers)
	var done sync.WaitGroup
	start := time.Now()
	bar := &c15Barrier{need: cs.Callers, ch: make(chan struct{})}
	// Some short rotation histories (a draw takes ~50ns, a parked thread needs far longer to
	// wake up) are run "hot" (pace hot-tight, hot-lockstep): the callers never park. Each spins from its creation until all have
	// been seen running, and in lockstep pace again before every draw. All spins are bounded
	// by a deadline, which only shapes the workload; no verdict depends on it.
	hot := strings.HasPrefix(cs.Pace, "hot-") && cs.Callers > 1 && cs.Callers <= runtime.GOMAXPROCS(0)
	var arrived, released atomic.Int32
	var meet []atomic.Int32
	if hot {
		meet = make([]atomic.Int32, cs.N+1)
	}
	const hotBudget = 2 * time.Millisecond
	maxDraws := cs.N + cs.Extra + 4
	if static {
		maxDraws = cs.N
	}
	lockstep := strings.HasSuffix(cs.Pace, "lockstep")
	for g := 0; g < cs.Callers; g++ {
		done.Add(1)
		go func(g int) {
			defer done.Done()
			defer bar.leave()
			r := rand.New(rand.NewSource(cs.Seed ^ (int64(g+1) * 0x5851f42d4c957f2d)))
			evs := make([]c15Event, 0, 8)
			tight := cs.Pace != "mixed" && r.Intn(5) != 0 // a tight/lockstep history still has a few loose callers
			if hot {
				if int(arrived.Add(1)) == cs.Callers {
					released.Store(1) // the last caller to get a thread releases all
				}
				for released.Load() == 0 && time.Since(start) < hotBudget {
				}
			} else {
				bar.wait() // common start
			}
			extraLeft := -1
			for d := 0; d < maxDraws; d++ {
				if lockstep && d > 0 && hot {
					meet[d].Add(1)
					for lim := time.Since(start) + hotBudget/8; int(meet[d].Load()) < cs.Callers && time.Since(start) < lim; {
					}
				} else if lockstep && d > 0 {
					// every caller that is still drawing arrives here before any starts its
					// d-th draw, so the draws of one round collide
					bar.wait()
					if !tight {
						c15Jitter(r, true)
					}
				} else {
					c15Jitter(r, tight)
				}
				tgt := new(vegeta.Target)
				t0 := int64(time.Since(start))
				err, pan := c15Draw(tr, tgt)
				t1 := int64(time.Since(start))
				c15Progress.Add(1)
				e := c15Event{Caller: g, Call: t0, Ret: t1, ID: -1}
				switch {
				case pan != nil:
					e.Err = fmt.Sprintf("panic: %v", pan)
				case err == vegeta.ErrNoTargets:
					e.Err = c15NoTargets
				case err != nil:
					e.Err = "error: " + err.Error()
				default:
					e.tgt = tgt
				}
				evs = append(evs, e)
				if pan != nil {
					break
				}
				if !static && err == vegeta.ErrNoTargets {
					if extraLeft < 0 {
						extraLeft = cs.Extra
					}
					if extraLeft == 0 {
						break
					}
					extraLeft--
				}
			}
			per[g] = evs
		}(g)
	}
	done.Wait()
	if in.src != nil {
		in.src.Close()
		os.Remove(in.path)
		in.src = nil
	}
	var all []c15Event
	for _, evs := range per {
		all = append(all, evs...)
	}
	// resolve returned targets to input ids (after the history, outside the hot loop)
	for i := range all {
		e := &all[i]
		if e.tgt == nil {
			continue
		}
		id, ok := in.byURL[e.tgt.URL]
		if !ok {
			e.Diff = fmt.Sprintf("url %q is not an input url", e.tgt.URL)
		} else if d := c14Diff(&in.want[id], e.tgt); d != "" {
			e.Diff = fmt.Sprintf("url is that of target %d but %s", id, d)
		} else {
			e.ID = id
		}
		if e.Diff != "" {
			g := c14CopyTarget(e.tgt)
			if len(g.Body) > 300 {
				g.Body = g.Body[:300]
			}
			e.Got = &g
		}
		e.tgt = nil
	}
	return all
}

// ---- oracle over a recorded history ----------------------------------------

type c15Witness struct {
	Case    c15Case    `json:"case"`
	Mode    string     `json:"mode"` // plain | race build
	Clause  string     `json:"clause"`
	Summary string     `json:"summary"`
	Events  []c15Event `json:"history"` // the complete recorded history
	Input   string     `json:"input_head,omitempty"`
}

type c15Stats struct {
	draws, ok, exhausted, overlaps int64
	sig                            string
	callersWithSuccess             int
	porcupine                      string
}

func c15Judge(cs *c15Case, events []c15Event, mode string, inputHead string, violate func(sig, summary string, w c15Witness)) c15Stats {
	var st c15Stats
	static := cs.Kind == "static" || cs.Kind == "static-large"
	nIn := cs.N
	if static {
		nIn = cs.K
	}
	reported := map[string]bool{}
	report := func(clause, summary string) {
		if reported[clause] {
			return
		}
		reported[clause] = true
		violate(fmt.Sprintf("C15/%s/%s", clause, cs.Kind),
			fmt.Sprintf("%s targeter, %d callers, case %d (%s build): %s", cs.Kind, cs.Callers, cs.Idx, mode, summary),
			c15Witness{Case: *cs, Mode: mode, Clause: clause, Summary: summary, Events: events, Input: inputHead})
	}
	counts := make([]int, nIn)
	firstExhaust := int64(-1)
	var firstExhaustCaller int
	succ := map[int]bool{}
	lastOf := map[int]*c15Event{}
	for i := range events {
		e := &events[i]
		st.draws++
		lastOf[e.Caller] = e
		switch {
		case e.Err == c15NoTargets:
			st.exhausted++
			if firstExhaust < 0 || e.Ret < firstExhaust {
				firstExhaust, firstExhaustCaller = e.Ret, e.Caller
			}
		case strings.HasPrefix(e.Err, "panic: "):
			report("panic", fmt.Sprintf("draw of caller %d panicked: %s", e.Caller, e.Err))
		case e.Err != "":
			report("unexpected-error", fmt.Sprintf("draw of caller %d returned %q (input is well-formed)", e.Caller, e.Err))
		case e.ID < 0 || e.ID >= nIn:
			st.ok++
			succ[e.Caller] = true
			report("torn-target", fmt.Sprintf("caller %d received a target that is not one of the %d input targets: %s", e.Caller, nIn, e.Diff))
		default:
			st.ok++
			succ[e.Caller] = true
			counts[e.ID]++
		}
	}
	st.callersWithSuccess = len(succ)
	if static {
		if st.exhausted > 0 {
			report("unexpected-error", "a static targeter reported ErrNoTargets")
		}
		n := int(st.ok)
		lo, hi := n/nIn, (n+nIn-1)/nIn
		for id, c := range counts {
			if c < lo || c > hi {
				report("rotation-counts", fmt.Sprintf("after %d draws over %d targets, target %d was handed out %d times (allowed %d..%d); counts %v", n, nIn, id, c, lo, hi, counts))
				break
			}
		}
	} else {
		var lost, dup []int
		for id, c := range counts {
			if c == 0 {
				lost = append(lost, id)
			} else if c > 1 {
				dup = append(dup, id)
			}
		}
		if len(dup) > 0 {
			report("duplicate-target", fmt.Sprintf("%d of %d input targets were handed out more than once, first: target %d, %d times", len(dup), nIn, dup[0], counts[dup[0]]))
		}
		if len(lost) > 0 {
			report("lost-target", fmt.Sprintf("%d of %d input targets were never handed out although every caller saw exhaustion, first: target %d", len(lost), nIn, lost[0]))
		}
		if firstExhaust >= 0 {
			for i := range events {
				e := &events[i]
				if e.Err == "" && e.Call > firstExhaust {
					report("target-after-exhaustion", fmt.Sprintf("caller %d was told ErrNoTargets (returned at %dns) and afterwards a draw of caller %d that began at %dns still received target %d", firstExhaustCaller, firstExhaust, e.Caller, e.Call, e.ID))
					break
				}
			}
		}
		for g := 0; g < cs.Callers; g++ {
			if l := lastOf[g]; l == nil || (l.Err != c15NoTargets && !strings.HasPrefix(l.Err, "panic: ")) {
				report("no-exhaustion", fmt.Sprintf("caller %d made %d draws from an input of %d targets and was never told ErrNoTargets", g, cs.N+cs.Extra+4, nIn))
				break
			}
		}
	}
	// interleaving signature: order of callers by return time
	ord := make([]int, len(events))
	for i := range ord {
		ord[i] = i
	}
	sort.SliceStable(ord, func(a, b int) bool { return events[ord[a]].Ret < events[ord[b]].Ret })
	h := fnv.New64a()
	for _, i := range ord {
		h.Write([]byte{byte(events[i].Caller)})
	}
	// overlaps = draws that began while a draw of ANOTHER caller was in flight (sweep by
	// call time, remembering the latest return time of the two callers that return last)
	sort.SliceStable(ord, func(a, b int) bool { return events[ord[a]].Call < events[ord[b]].Call })
	best, second := [2]int64{-1, -1}, [2]int64{-1, -1} // {caller, ret}
	for _, i := range ord {
		e := &events[i]
		other := best
		if best[0] == int64(e.Caller) {
			other = second
		}
		if other[0] >= 0 && other[1] > e.Call {
			st.overlaps++
		}
		switch {
		case best[0] == int64(e.Caller):
			if e.Ret > best[1] {
				best[1] = e.Ret
			}
		case e.Ret > best[1]:
			second, best = best, [2]int64{int64(e.Caller), e.Ret}
		case second[0] == int64(e.Caller):
			if e.Ret > second[1] {
				second[1] = e.Ret
			}
		case e.Ret > second[1]:
			second = [2]int64{int64(e.Caller), e.Ret}
		}
	}
	st.sig = fmt.Sprintf("%016x", h.Sum64())

	if cs.Kind == "static" && len(events) > 0 && !reported["torn-target"] && !reported["panic"] && !reported["unexpected-error"] {
		k := nIn
		model := porcupine.Model{
			Init: func() interface{} { return 0 },
			Step: func(state, input, output interface{}) (bool, interface{}) {
				s := state.(int)
				return output.(int) == s%k, s + 1
			},
			Equal:             func(a, b interface{}) bool { return a.(int) == b.(int) },
			DescribeOperation: func(_, output interface{}) string { return fmt.Sprintf("draw -> target %d", output.(int)) },
			DescribeState:     func(s interface{}) string { return fmt.Sprintf("next=%d", s.(int)) },
		}
		ops := make([]porcupine.Operation, 0, len(events))
		for _, e := range events {
			if e.Err == "" {
				ops = append(ops, porcupine.Operation{ClientId: e.Caller, Input: nil, Call: e.Call, Output: e.ID, Return: e.Ret})
			}
		}
		res, _ := porcupine.CheckOperationsVerbose(model, ops, 20*time.Second)
		st.porcupine = string(res)
		if res == porcupine.Illegal {
			report("rotation-not-linearizable", fmt.Sprintf("the history of %d draws over %d targets has no linearization in which the i-th draw returns targets[i mod %d]; counts %v", len(ops), k, k, counts))
		}
	}
	return st
}

// ---- child -----------------------------------------------------------------

func c15RunAndJudge(run *ev.Run, cs *c15Case, dir, mode string) bool {
	b, _ := json.Marshal(cs)
	logCase(string(b))
	type result struct {
		events []c15Event
		in     *c15Input
		err    error
	}
	ch := make(chan result, 1)
	go func() {
		in, err := c15Build(cs, dir)
		if err != nil {
			ch <- result{err: err}
			return
		}
		ch <- result{events: c15Run(cs, in), in: in}
	}()
	var res result
	// The callers never sleep and the input is in memory, so a history can only stand still when
	// every caller is parked. If at least one of them is parked inside the targeter and no draw
	// returns between several goroutine dumps, no caller can ever be released: the targeter has
	// deadlocked and the blocked callers will never be told about exhaustion. The wall-clock
	// watchdog remains and only yields "inconclusive".
	watchdog := time.After(3 * time.Minute)
	tick := time.NewTicker(150 * time.Millisecond)
	defer tick.Stop()
	lastProgress, still, spins := int64(-1), 0, 0
wait:
	for {
		select {
		case res = <-ch:
			break wait
		case <-watchdog:
			run.Inconclusive(fmt.Sprintf("history %s did not finish within the 3 min watchdog (callers blocked inside the targeter?)", b))
			return false
		case <-tick.C:
			p := c15Progress.Load()
			if p != lastProgress {
				lastProgress, still, spins = p, 0, 0
				continue
			}
			callers, parked, inTargeter, where := 0, 0, 0, ""
			gs := goroutineDump()
			for _, g := range gs {
				if !strings.Contains(g.Frames, "main.c15Run.func") {
					continue
				}
				callers++
				if parkedG(g) {
					parked++
					if strings.Contains(g.Frames, "main.c15Draw") && isVegetaG(g) {
						inTargeter++
						if where == "" {
							where = "targeter[" + g.State + "]"
							for _, l := range strings.Split(g.Frames, "\n") {
								if l = strings.TrimSpace(l); strings.HasPrefix(l, repoDir()+"/") {
									l = strings.TrimPrefix(l, repoDir()+"/")
									if k := strings.IndexByte(l, ':'); k > 0 {
										l = l[:k]
									}
									where = l + "[" + g.State + "]"
									break
								}
							}
						}
					}
				}
			}
			// the other way of never returning: callers that keep running inside the targeter without a
			// single draw returning for 20 ticks (3 s; a draw takes well under a microsecond)
			if callers > 0 && parked < callers && c15Progress.Load() == p {
				spinningIn := 0
				for _, g := range gs {
					if strings.Contains(g.Frames, "main.c15Run.func") && !parkedState(g.State) && strings.Contains(g.Frames, "main.c15Draw") && isVegetaG(g) {
						spinningIn++
					}
				}
				if spinningIn > 0 && spinningIn+parked == callers {
					if spins++; spins >= 20 {
						run.Eval(1)
						run.Violate("C15/draw-never-returns/"+cs.Kind, fmt.Sprintf("%s targeter: for 3 s no draw has returned although %d of the %d remaining callers keep running inside the targeter (the others wait for them)", cs.Kind, spinningIn, callers),
							c15Witness{Case: *cs, Mode: mode, Clause: "spinning", Summary: c12Trunc(describeGs(gs))})
						return false
					}
				} else {
					spins = 0
				}
			} else {
				spins = 0
			}
			if callers == 0 || parked < callers || inTargeter == 0 || c15Progress.Load() != p {
				still = 0
				continue
			}
			if still++; still < 4 {
				continue
			}
			run.Eval(1)
			run.Violate("C15/blocked/"+cs.Kind+"/"+where,
				fmt.Sprintf("%s targeter: all %d remaining callers are parked, %d of them inside the targeter (%s), and no draw has returned across %d goroutine dumps: these callers are never told that the targets are exhausted", cs.Kind, callers, inTargeter, where, still),
				c15Witness{Case: *cs, Mode: mode, Clause: "blocked", Summary: c12Trunc(describeGs(gs))})
			return false
		}
	}
	if res.err != nil {
		run.Inconclusive("cannot build input: " + res.err.Error())
		return false
	}
	head := res.in.text
	if len(head) > 1500 {
		head = head[:1500] + "..."
	}
	st := c15Judge(cs, res.events, mode, head, func(sig, summary string, w c15Witness) { run.Violate(sig, summary, w) })
	run.Eval(1)
	run.Count("histories_checked", 1)
	run.Count("histories_"+cs.Kind, 1)
	run.Count("histories_"+mode+"_build", 1)
	run.Count("draws", st.draws)
	run.Count("draws_returning_a_target", st.ok)
	run.Count("draws_returning_ErrNoTargets", st.exhausted)
	run.Count("draws_begun_while_another_callers_draw_in_flight", st.overlaps)
	run.Max("callers", float64(cs.Callers))
	run.Max("draws_begun_while_another_in_flight_in_one_history", float64(st.overlaps))
	if st.porcupine != "" {
		run.Count("porcupine_"+strings.ToLower(st.porcupine), 1)
		if st.porcupine == string(porcupine.Unknown) {
			run.Inconclusive(fmt.Sprintf("porcupine timed out on history %s", b))
		}
	}
	if st.callersWithSuccess >= 2 && st.overlaps > 0 {
		run.Count("histories_with_overlapping_callers", 1)
		run.Distinct(cs.Kind + "/" + st.sig)
		run.Class(cs.Kind + "/interleaved")
		if cs.Idx%97 == 0 {
			run.Sample(map[string]any{"case": cs, "build": mode, "draws": st.draws, "draws_begun_while_another_callers_draw_in_flight": st.overlaps, "return_order_signature": st.sig})
		}
	} else {
		run.Class(cs.Kind + "/sequential")
	}
	return true
}

func c15Child(c *Ctx) int {
	run := ev.NewChildRun("C15", c.Tier)
	if len(c.Child) < 3 {
		fmt.Fprintln(os.Stderr, "usage: --child plain|race shard i/n | case <json> <reps>")
		return ev.ExitBroken
	}
	mode := c.Child[0]
	dir, err := os.MkdirTemp("", "verif-c15-")
	if err != nil {
		fmt.Fprintln(os.Stderr, err)
		return ev.ExitBroken
	}
	defer os.RemoveAll(dir)
	var cases []c15Case
	switch c.Child[1] {
	case "long-rotation":
		// strict rotation must hold for ever, not only for as many draws as a small counter can
		// count: k = 3 targets (no power of two), every draw compared with its predecessor
		n, _ := strconv.ParseUint(c.Child[2], 10, 64)
		const k = 3
		tgts := make([]vegeta.Target, k)
		for i := range tgts {
			tgts[i] = vegeta.Target{Method: "GET", URL: fmt.Sprintf("http://rot.verif.test/%d", i)}
		}
		tr := vegeta.NewStaticTargeter(tgts...)
		var t vegeta.Target
		prev := -1
		for d := uint64(0); d < n; d++ {
			if err := tr(&t); err != nil {
				run.Violate("C15/unexpected-error/static-long-rotation", fmt.Sprintf("draw %d of a static targeter with %d targets: %v", d, k, err), map[string]any{"draw": d, "targets": k})
				break
			}
			want := (prev + 1) % k
			if prev >= 0 && t.URL != tgts[want].URL {
				run.Violate("C15/rotation-broken/static-long-rotation", fmt.Sprintf("static targeter with %d targets, sequential draws: draw %d returned %s right after %s (want %s)", k, d, t.URL, tgts[prev].URL, tgts[want].URL),
					map[string]any{"draw": d, "targets": k, "got": t.URL, "previous": tgts[prev].URL})
				break
			}
			if prev < 0 {
				for i := range tgts {
					if tgts[i].URL == t.URL {
						want = i
					}
				}
			}
			prev = want
		}
		run.Eval(1)
		run.Count("static_long_rotation_draws", int64(n))
		run.Class("static/long-rotation")
		run.Distinct(fmt.Sprintf("long-rotation:%d", n))
		fmt.Println(run.BlobLine())
		return ev.ExitOK
	case "shard":
		var i, n int
		if _, err := fmt.Sscanf(c.Child[2], "%d/%d", &i, &n); err != nil || n <= 0 {
			fmt.Fprintln(os.Stderr, "bad shard", c.Child[2])
			return ev.ExitBroken
		}
		for _, cs := range c15Cases(c) {
			if cs.Idx%n == i {
				cases = append(cases, cs)
			}
		}
	case "case":
		var cs c15Case
		if err := json.Unmarshal([]byte(c.Child[2]), &cs); err != nil {
			fmt.Fprintln(os.Stderr, "bad case:", err)
			return ev.ExitBroken
		}
		reps := 1
		if len(c.Child) > 3 {
			fmt.Sscanf(c.Child[3], "%d", &reps)
		}
		for i := 0; i < reps; i++ {
			cases = append(cases, cs)
		}
	}
	// under the race detector: attribute reports to the case during which the log grew
	raceLog := ""
	for _, f := range strings.Fields(os.Getenv("GORACE")) {
		if strings.HasPrefix(f, "log_path=") {
			raceLog = fmt.Sprintf("%s.%d", strings.TrimPrefix(f, "log_path="), os.Getpid())
		}
	}
	var raceLogSize int64
	raceCases := 0
	for i := range cases {
		if !c15RunAndJudge(run, &cases[i], dir, mode) {
			break
		}
		if raceLog != "" && raceCases < 20 {
			if fi, err := os.Stat(raceLog); err == nil && fi.Size() > raceLogSize {
				raceLogSize = fi.Size()
				raceCases++
				b, _ := json.Marshal(&cases[i])
				fmt.Fprintf(os.Stderr, "RACE-CASE %s\n", b)
			}
		}
	}
	fmt.Println(run.BlobLine())
	os.RemoveAll(dir)
	return ev.ExitOK
}

// ---- parent ----------------------------------------------------------------

func c15RaceFilter(block string) bool {
	return strings.Contains(block, "vegeta/v12/lib") || inVegeta(block)
}

func c15Fold(run *ev.Run, outs []childOutcome) {
	for _, o := range outs {
		// the race runtime exits with its own status (66) when it has reported something;
		// that is not a death: the reports themselves are judged below.
		if o.Spec.Race && o.ExitCode == 66 && o.Blob != nil && len(o.RaceBlocks) > 0 {
			o.ExitCode = 0
		}
		// the child names the cases during which its race log grew; the first one is the
		// case to replay for the race reports (foldChild stores LastCase in the witness)
		if len(o.RaceBlocks) > 0 && !o.TimedOut && o.Blob != nil {
			for _, line := range strings.Split(o.Stderr, "\n") {
				if strings.HasPrefix(line, "RACE-CASE ") {
					o.LastCase = strings.TrimPrefix(line, "RACE-CASE ")
					break
				}
			}
		}
		foldChild(run, o, c15RaceFilter)
	}
	if n := run.Counter("race_report_blocks_not_attributed"); n > 0 {
		run.Inconclusive(fmt.Sprintf("%d race reports without a vegeta frame (a race inside the harness itself)", n))
	}
}

func runC15(c *Ctx) int {
	if c.Child != nil {
		return c15Child(c)
	}
	run := ev.NewRun("C15", c.Tier, "exploration",
		"recorded concurrent histories of 1..64 goroutines drawing from one http / JSON / static targeter, run in a plain and in a -race build; "+
			"case = (targeter kind, input, callers, per-caller PRNG yield pattern) executed once per build; non-trivial = at least 2 callers received targets and at least one draw began while a draw of another caller was in flight; "+
			"distinct by targeter kind + hash of the order of callers by return time")
	run.Assume("a draw's recorded interval [time before the call, time after the return] contains the operation, so 'began after ... returned' and linearizability verdicts are sound for any scheduler behaviour")
	run.Assume("inputs avoid the two known C14 defects (no comment between consecutive request lines; default header keys are not repeated by targets)")
	run.Assume("race reports are attributed to vegeta when a stack of the report has a frame in vegeta/v12/lib")

	if c.Replay != "" {
		return c15Replay(c, run)
	}
	if _, err := os.Stat(c.Bin("verifmon-race")); err != nil {
		run.Inconclusive("no -race build of the harness available: " + err.Error())
	}

	shards := c.Pick(6, 8)
	var specs []childSpec
	for _, race := range []bool{false, true} {
		mode := "plain"
		if race {
			mode = "race"
			if _, err := os.Stat(c.Bin("verifmon-race")); err != nil {
				continue
			}
		}
		for i := 0; i < shards; i++ {
			specs = append(specs, childSpec{Race: race, Args: []string{mode, "shard", fmt.Sprintf("%d/%d", i, shards)},
				Label: fmt.Sprintf("%s-%d/%d", mode, i, shards), Timeout: time.Duration(c.Pick(5, 25)) * time.Minute})
		}
	}
	if !c.Quick() {
		// thorough tier only (75-90 s of one core): one static targeter is drawn from 2^32 + 2^20 times in a row
		specs = append(specs, childSpec{Args: []string{"plain", "long-rotation", "4296015872"}, Label: "static targeter, 2^32+2^20 sequential draws", Timeout: 25 * time.Minute})
	}
	outs := runChildren(c, specs, 8)
	c15Fold(run, outs)

	n := int64(c.Pick(4800, 60000))
	run.Floor("histories_checked", 2*n*9/10)
	c15CLI(c, run)
	run.Floor("cli_targets_runs", int64(c.Pick(5, 50)))
	run.Floor("histories_race_build", n*9/10)
	run.Floor("histories_plain_build", n*9/10)
	run.Floor("histories_with_overlapping_callers", n/5)
	run.Floor("porcupine_ok", n/2)
	run.Floor("draws_returning_ErrNoTargets", n)
	run.FloorDistinct(int(n / 5))
	return run.Finish()
}

func c15Replay(c *Ctx, run *ev.Run) int {
	b, err := os.ReadFile(c.Replay)
	if err != nil {
		fmt.Fprintln(os.Stderr, err)
		return ev.ExitBroken
	}
	var v struct {
		Detail struct {
			c15Witness
			LastCase string `json:"last_case"` // data-race / child-death witnesses written by foldChild
		} `json:"detail"`
	}
	if err := json.Unmarshal(b, &v); err != nil {
		fmt.Fprintln(os.Stderr, err)
		return ev.ExitBroken
	}
	w := v.Detail.c15Witness
	if w.Case.Kind == "" && v.Detail.LastCase != "" {
		if err := json.Unmarshal([]byte(v.Detail.LastCase), &w.Case); err != nil {
			fmt.Fprintln(os.Stderr, "replay: cannot parse last_case:", err)
			return ev.ExitBroken
		}
	}
	if w.Case.Kind == "" {
		fmt.Fprintln(os.Stderr, "replay file has no case")
		return ev.ExitBroken
	}
	// 1. re-judge the recorded history
	if len(w.Events) > 0 {
		c15Judge(&w.Case, w.Events, w.Mode+"/recorded", w.Input, func(sig, summary string, nw c15Witness) { run.Violate(sig, summary, nw) })
		run.Count("recorded_histories_rejudged", 1)
	}
	// 2. re-run the workload that produced it, same seed, many times, both builds
	cj, _ := json.Marshal(w.Case)
	reps := "300"
	specs := []childSpec{{Args: []string{"plain", "case", string(cj), reps}, Label: "replay-plain", Timeout: 10 * time.Minute}}
	if _, err := os.Stat(c.Bin("verifmon-race")); err == nil {
		specs = append(specs, childSpec{Race: true, Args: []string{"race", "case", string(cj), reps}, Label: "replay-race", Timeout: 10 * time.Minute})
	}
	c15Fold(run, runChildren(c, specs, 2))
	run.Distinct("replay")
	run.Distinct("replay2")
	run.Sample(map[string]any{"replayed": c.Replay, "case": w.Case})
	return run.Finish()
}
