//go:build verif

// In-package probe of vegeta's package main, used by the /verif monitors
// (C16, C18, C19, C20). It is NOT part of the repository: /verif/check maps it into
// the package at build time with `go test -c -tags verif -overlay`. It holds no
// oracle: it builds the real flag set of the attack command, applies values,
// and reports what the real flag.Values / the real internal/resolver did.
//
// Protocol: one JSON command per line in $VERIF_PROBE_IN, one JSON answer per
// line in $VERIF_PROBE_OUT (same order). Each command is logged to stderr
// before it runs so that a crash can be attributed.
package main

import (
	"bufio"
	"bytes"
	"context"
	"encoding/hex"
	"encoding/json"
	"flag"
	"fmt"
	"io"
	"os"
	"runtime"
	"sync"
	"sync/atomic"
	"testing"
	"time"

	"github.com/prometheus/client_golang/prometheus"
	"github.com/tsenart/vegeta/v12/internal/resolver"
	vegeta "github.com/tsenart/vegeta/v12/lib"
	prom "github.com/tsenart/vegeta/v12/lib/prom"
)

type verifCmd struct {
	Op         string   `json:"op"` // set | parse | resolver
	Flag       string   `json:"flag,omitempty"`
	Values     []string `json:"values,omitempty"`
	ValuesHex  []string `json:"values_hex,omitempty"`
	Args       []string `json:"args,omitempty"`
	Addrs      []string `json:"addrs,omitempty"`
	Dials      int      `json:"dials,omitempty"`
	Goroutines int      `json:"goroutines,omitempty"`
	Results    int      `json:"results,omitempty"` // pump: number of results fed to processAttack
	ErrEvery   int      `json:"err_every,omitempty"`
	FailWrite  int      `json:"fail_write,omitempty"` // pump: the output fails from this Write call on (0 = never)
	URLs       int      `json:"urls,omitempty"`       // pump: number of distinct URL label values (default 4)
	SignalAt   int      `json:"signal_at,omitempty"`  // pump: one interrupt is delivered after this many results were handed over (0 = none)
	Feeders    int      `json:"feeders,omitempty"`    // pump: goroutines handing results over concurrently, as the workers of an attack do (default 1)
	Network    string   `json:"network,omitempty"`    // resolver: network of the dials (default udp)
}

type verifDial struct {
	G      int    `json:"g"`
	Call   int64  `json:"call_ns"`
	Return int64  `json:"return_ns"`
	Remote string `json:"remote"`
	Err    string `json:"err,omitempty"`
}

type verifAns struct {
	Errs       []string          `json:"errs,omitempty"`
	String     string            `json:"string"`
	Strings    map[string]string `json:"strings,omitempty"`
	Rest       []string          `json:"rest,omitempty"`
	Panic      string            `json:"panic,omitempty"`
	AllocBytes uint64            `json:"alloc_bytes"`
	Err        string            `json:"err,omitempty"`
	Dials      []verifDial       `json:"dials,omitempty"`
	// pump: what the real result pump (processAttack) wrote and what the metrics it fed report
	Written       int     `json:"written,omitempty"`
	ObservedCount uint64  `json:"observed_count,omitempty"`
	ObservedIn    float64 `json:"observed_bytes_in,omitempty"`
	ObservedOut   float64 `json:"observed_bytes_out,omitempty"`
	ObservedFail  float64 `json:"observed_fail,omitempty"`
	Taken         int     `json:"taken,omitempty"` // pump: results the pump took from the channel
	// pump: the largest number of results that had been handed over but not yet passed to the encoder
	// when the encoder was called (0 when every result is encoded before the next one is taken)
	MaxLag int `json:"max_lag"`
}

// verifFailingWriter fails every Write call from the n-th on (n = 0: never).
type verifFailingWriter struct {
	buf    bytes.Buffer
	failAt int
	n      int
}

func (w *verifFailingWriter) Write(p []byte) (int, error) {
	w.n++
	if w.failAt > 0 && w.n >= w.failAt {
		return 0, fmt.Errorf("verif: injected write error at write %d", w.n)
	}
	return w.buf.Write(p)
}

func verifRun(c verifCmd) (a verifAns) {
	defer func() {
		if r := recover(); r != nil {
			a.Panic = fmt.Sprint(r)
		}
	}()
	switch c.Op {
	case "set":
		fs := attackCmd().fs
		fs.Init("vegeta attack", flag.ContinueOnError)
		fs.SetOutput(io.Discard)
		vals := c.Values
		for _, h := range c.ValuesHex {
			b, err := hex.DecodeString(h)
			if err != nil {
				a.Err = err.Error()
				return
			}
			vals = append(vals, string(b))
		}
		var m0, m1 runtime.MemStats
		runtime.ReadMemStats(&m0)
		for _, v := range vals {
			if err := fs.Set(c.Flag, v); err != nil {
				a.Errs = append(a.Errs, err.Error())
			} else {
				a.Errs = append(a.Errs, "")
			}
		}
		runtime.ReadMemStats(&m1)
		a.AllocBytes = m1.TotalAlloc - m0.TotalAlloc
		if f := fs.Lookup(c.Flag); f != nil {
			a.String = f.Value.String()
		} else {
			a.Err = "no such flag"
		}
	case "parse":
		fs := attackCmd().fs
		fs.Init("vegeta attack", flag.ContinueOnError)
		fs.SetOutput(io.Discard)
		if err := fs.Parse(c.Args); err != nil {
			a.Err = err.Error()
		}
		a.Strings = map[string]string{}
		fs.VisitAll(func(f *flag.Flag) { a.Strings[f.Name] = f.Value.String() })
		a.Rest = fs.Args()
	case "resolver":
		var m0, m1 runtime.MemStats
		runtime.ReadMemStats(&m0)
		res, err := resolver.NewResolver(c.Addrs)
		runtime.ReadMemStats(&m1)
		a.AllocBytes = m1.TotalAlloc - m0.TotalAlloc
		if err != nil {
			a.Err = err.Error()
			return
		}
		g := c.Goroutines
		if g < 1 {
			g = 1
		}
		base := time.Now()
		var mu sync.Mutex
		var wg sync.WaitGroup
		start := make(chan struct{})
		for i := 0; i < g; i++ {
			wg.Add(1)
			go func(i int) {
				defer wg.Done()
				<-start
				for d := 0; d < c.Dials; d++ {
					t0 := time.Since(base)
					network := c.Network
					if network == "" {
						network = "udp"
					}
					conn, err := res.Dial(context.Background(), network, "192.0.2.1:53")
					t1 := time.Since(base)
					rec := verifDial{G: i, Call: int64(t0), Return: int64(t1)}
					if err != nil {
						rec.Err = err.Error()
					} else {
						rec.Remote = conn.RemoteAddr().String()
						conn.Close()
					}
					mu.Lock()
					a.Dials = append(a.Dials, rec)
					mu.Unlock()
				}
			}(i)
		}
		close(start)
		wg.Wait()
	case "pump":
		// the real result pump of the attack command, fed as fast as a channel
		// allows, with a fresh attacker, a gob encoder and Prometheus metrics
		atk := vegeta.NewAttacker()
		res := make(chan *vegeta.Result)
		out := &verifFailingWriter{failAt: c.FailWrite}
		enc := vegeta.NewEncoder(out)
		sig := make(chan os.Signal, 1)
		pm := prom.NewMetrics()
		reg := prometheus.NewRegistry()
		if err := pm.Register(reg); err != nil {
			a.Err = err.Error()
			return
		}
		urls := c.URLs
		if urls < 1 {
			urls = 4
		}
		var taken atomic.Int64
		quit := make(chan struct{})
		feederDone := make(chan struct{})
		feeders := c.Feeders
		if feeders < 1 {
			feeders = 1
		}
		var next atomic.Int64
		var fwg sync.WaitGroup
		base := time.Unix(1700000000, 0)
		for f := 0; f < feeders; f++ {
			fwg.Add(1)
			go func() {
				defer fwg.Done()
				for {
					i := int(next.Add(1)) - 1
					if i >= c.Results {
						return
					}
					r := &vegeta.Result{Attack: "pump", Seq: uint64(i), Code: 200, Timestamp: base.Add(time.Duration(i) * time.Microsecond),
						Latency: time.Duration(1+i%7) * time.Millisecond, BytesIn: uint64(10 + i%5), BytesOut: uint64(i % 3), Method: "GET", URL: fmt.Sprintf("http://pump/%d", i%urls)}
					if c.ErrEvery > 0 && i%c.ErrEvery == 0 {
						r.Code, r.Error = 500, "500 Internal Server Error"
					}
					select {
					case res <- r:
						if n := taken.Add(1); c.SignalAt > 0 && int(n) == c.SignalAt {
							sig <- os.Interrupt // the first Ctrl-C: stop attacking, keep collecting what is in flight
						}
					case <-quit: // the pump gave up (write error)
						return
					}
				}
			}()
		}
		go func() {
			fwg.Wait()
			select {
			case <-quit:
			default:
				close(res)
			}
			close(feederDone)
		}()
		// the encoder the pump is given counts how far the hand-overs are ahead of it: when it is
		// called for the k-th time the pump has taken k results, no more
		var encoded, maxLag int64
		observingEnc := vegeta.Encoder(func(r *vegeta.Result) error {
			encoded++
			if lag := taken.Load() - encoded; lag > maxLag {
				maxLag = lag
			}
			return enc(r)
		})
		if err := processAttack(atk, res, observingEnc, sig, pm); err != nil {
			a.Err = err.Error()
		}
		a.MaxLag = int(maxLag)
		// a completed hand-over is counted before the feeder looks at quit again, so after
		// the feeder has ended the count of results the pump took is exact
		close(quit)
		<-feederDone
		a.Taken = int(taken.Load())
		dec := vegeta.NewDecoder(&out.buf)
		for {
			var r vegeta.Result
			if dec.Decode(&r) != nil {
				break
			}
			a.Written++
		}
		mfs, err := reg.Gather()
		if err != nil {
			a.Err = err.Error()
			return
		}
		for _, mf := range mfs {
			for _, m := range mf.GetMetric() {
				switch mf.GetName() {
				case "request_seconds":
					a.ObservedCount += m.GetHistogram().GetSampleCount()
				case "request_bytes_in":
					a.ObservedIn += m.GetCounter().GetValue()
				case "request_bytes_out":
					a.ObservedOut += m.GetCounter().GetValue()
				case "request_fail_count":
					a.ObservedFail += m.GetCounter().GetValue()
				}
			}
		}
	default:
		a.Err = "unknown op"
	}
	return
}

func TestVerifProbe(t *testing.T) {
	in, out := os.Getenv("VERIF_PROBE_IN"), os.Getenv("VERIF_PROBE_OUT")
	if in == "" || out == "" {
		t.Skip("VERIF_PROBE_IN / VERIF_PROBE_OUT not set")
	}
	fin, err := os.Open(in)
	if err != nil {
		t.Fatal(err)
	}
	defer fin.Close()
	fout, err := os.Create(out)
	if err != nil {
		t.Fatal(err)
	}
	defer fout.Close()
	w := bufio.NewWriter(fout)
	defer w.Flush()
	sc := bufio.NewScanner(fin)
	sc.Buffer(make([]byte, 1<<20), 64<<20)
	n := 0
	for sc.Scan() {
		var c verifCmd
		if err := json.Unmarshal(sc.Bytes(), &c); err != nil {
			t.Fatalf("bad command line %d: %v", n, err)
		}
		fmt.Fprintf(os.Stderr, "CASE %d %s\n", n, sc.Bytes())
		a := verifRun(c)
		b, _ := json.Marshal(a)
		w.Write(b)
		w.WriteByte('\n')
		n++
	}
	if err := sc.Err(); err != nil {
		t.Fatal(err)
	}
}
