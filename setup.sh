#!/bin/bash
# Offline setup after a fresh restore: warm the Go build cache for everything
# the checks build (harness plain and -race, vegeta, the overlay probe).
set -u
ROOT="$(cd "$(dirname "$0")" && pwd)"
REPO="${VERIF_REPO:-/repo}"
export GOFLAGS=-mod=mod GOPROXY=off GOSUMDB=off GOTOOLCHAIN=local
T="$(mktemp -d "${TMPDIR:-/tmp}/verif-setup.XXXXXX")"
trap 'rm -rf "$T"' EXIT
set -e
(cd "$ROOT/harness" && go build -o "$T/verifmon" ./cmd/verifmon)
(cd "$ROOT/harness" && go build -race -o "$T/verifmon-race" ./cmd/verifmon)
(cd "$REPO" && go build -o "$T/vegeta" .)
(cd "$REPO" && go build -race -o "$T/vegeta-race" .)
if [ -f "$ROOT/probes/main_pkg/zz_verif_probe_test.go" ]; then
  cat >"$T/overlay.json" <<EOT
{"Replace": {"$REPO/zz_verif_probe_test.go": "$ROOT/probes/main_pkg/zz_verif_probe_test.go"}}
EOT
  (cd "$REPO" && go test -c -tags verif -vet=off -overlay "$T/overlay.json" -o "$T/probe.test" .)
  (cd "$REPO" && go test -c -race -tags verif -vet=off -overlay "$T/overlay.json" -o "$T/probe-race.test" .)
fi
mkdir -p "$ROOT/evidence" "$ROOT/replay"
echo "setup ok"
