#!/usr/bin/env python3
"""Independent reader of vegeta's documented result layouts (CSV and JSON).

Written from the documentation only (README.md "encode command", `vegeta encode -h`
and the field names of the JSON result objects); it shares no code with vegeta and
uses nothing but the python3 standard library (csv, json, base64).

usage: read_results.py <batch.jsonl>

The batch file is written by the Go harness:
  line 1:   {"schema": [{"name": GoFieldName, "json": jsonName, "kind": kind, "bits": n}, ...]}
  line 2..: {"id": ..., "csv_hex"|"csv_path": ..., "json_hex"|"json_path": ..., "records": [[v, ...], ...]}
where a record is the neutral dump of the ORIGINAL result, one value per schema field:
  string -> hex of the UTF-8 bytes; uint/int/duration -> decimal string;
  time -> [unix nanoseconds as decimal string, zone offset seconds]; bytes -> null | hex;
  header -> null | [[key hex, [value hex, ...]], ...]; bool -> bool; float -> IEEE bits as decimal string.

For every stream the encoded bytes are parsed by the documented layout and compared
field by field with the dump. Every mismatch is printed as one JSON line
  {"id","codec","record","field","want","got","msg"}
and the last line is {"summary": {...}} with what was really compared.
"""
import base64
import binascii
import calendar
import csv
import io
import json
import re
import struct
import sys

# ---------------------------------------------------------------------------
# The documented layouts.

# CSV: "The CSV encoder doesn't write a header. The columns written by it are:"
#   1. Unix timestamp in nanoseconds since epoch     2. HTTP status code
#   3. Request latency in nanoseconds                4. Bytes out
#   5. Bytes in                                      6. Error
#   7. Base64 encoded response body                  8. Attack name
#   9. Sequence number of request                   10. Method
#  11. URL                                          12. Base64 encoded response headers
CSV_COLUMNS = [
    ("Timestamp", "unix_ns"),
    ("Code", "integer"),
    ("Latency", "integer"),
    ("BytesOut", "integer"),
    ("BytesIn", "integer"),
    ("Error", "text"),
    ("Body", "base64"),
    ("Attack", "text"),
    ("Seq", "integer"),
    ("Method", "text"),
    ("URL", "text"),
    ("Headers", "base64_http_headers"),
]

# JSON: one object per line with exactly these names; latency in nanoseconds,
# timestamp RFC 3339, body base64.
JSON_NAMES = {
    "Attack": "attack",
    "Seq": "seq",
    "Code": "code",
    "Timestamp": "timestamp",
    "Latency": "latency",
    "BytesOut": "bytes_out",
    "BytesIn": "bytes_in",
    "Error": "error",
    "Body": "body",
    "Method": "method",
    "URL": "url",
    "Headers": "headers",
}

MAX_MISMATCHES_PER_STREAM = 12

csv.field_size_limit(2 ** 31 - 1)


class Bad(Exception):
    pass


# ---------------------------------------------------------------------------
# expected values from the neutral dump

def expected(kind, v):
    if kind == "string":
        return bytes.fromhex(v).decode("utf-8")
    if kind in ("uint", "int", "duration"):
        return int(v)
    if kind == "time":
        return int(v[0])
    if kind == "bytes":
        return b"" if v is None else bytes.fromhex(v)
    if kind == "header":
        if v is None:
            return {}
        return {bytes.fromhex(k).decode("utf-8"): [bytes.fromhex(x).decode("utf-8") for x in vals] for k, vals in v}
    if kind == "bool":
        return bool(v)
    if kind == "float":
        return struct.unpack("<d", struct.pack("<Q", int(v)))[0]
    raise Bad("unknown kind %r in schema" % kind)


def show(v):
    """JSON-serialisable, bounded rendering of a value for a mismatch line."""
    if isinstance(v, bytes):
        h = v.hex()
        return "hex:" + (h if len(h) <= 160 else h[:120] + "...(%d bytes)" % len(v))
    if isinstance(v, str):
        h = v.encode("utf-8", "surrogatepass").hex()
        return "utf8hex:" + (h if len(h) <= 160 else h[:120] + "...(%d bytes)" % (len(h) // 2))
    if isinstance(v, dict):
        return {show(k): [show(x) for x in vals] if isinstance(vals, list) else show(vals) for k, vals in list(v.items())[:8]}
    if isinstance(v, (int, float, bool)) or v is None:
        if isinstance(v, int) and not isinstance(v, bool) and abs(v) > 2 ** 53:
            return str(v)
        return v
    return repr(v)[:200]


# ---------------------------------------------------------------------------
# value parsers of the documented units

INT_RE = re.compile(r"^-?[0-9]+$")


def parse_integer(text):
    if not INT_RE.match(text):
        raise Bad("not a decimal integer: %r" % text[:40])
    return int(text)


def parse_base64(text):
    try:
        return base64.b64decode(text.encode("ascii"), validate=True)
    except (binascii.Error, ValueError, UnicodeEncodeError) as e:
        raise Bad("not standard padded base64: %s" % e)


def parse_http_headers(block):
    """HTTP wire format: zero or more 'Key: value CRLF' lines, then an empty line (CRLF)."""
    if block == b"":
        return {}
    if not block.endswith(b"\r\n"):
        raise Bad("header block is not terminated by an empty line (CRLF)")
    body = block[:-2]
    hdr = {}
    if body == b"":
        return hdr
    if not body.endswith(b"\r\n"):
        raise Bad("last header line is not terminated by CRLF")
    for line in body[:-2].split(b"\r\n"):
        key, sep, val = line.partition(b":")
        if not sep or not key:
            raise Bad("header line without 'key:': %r" % line[:60])
        val = val.strip(b" \t")
        hdr.setdefault(key.decode("utf-8"), []).append(val.decode("utf-8"))
    return hdr


RFC3339_RE = re.compile(r"^(\d{4})-(\d{2})-(\d{2})[Tt](\d{2}):(\d{2}):(\d{2})(?:\.(\d{1,9}))?([Zz]|[+-]\d{2}:\d{2})$")


def parse_rfc3339_ns(text):
    m = RFC3339_RE.match(text)
    if not m:
        raise Bad("not an RFC 3339 timestamp: %r" % text[:60])
    y, mo, d, h, mi, s = (int(m.group(i)) for i in range(1, 7))
    if not (1 <= mo <= 12 and 1 <= d <= 31 and h <= 23 and mi <= 59 and s <= 60):
        raise Bad("RFC 3339 timestamp out of range: %r" % text)
    frac = (m.group(7) or "").ljust(9, "0")
    off = 0
    z = m.group(8)
    if z not in ("Z", "z"):
        off = (int(z[1:3]) * 60 + int(z[4:6])) * 60
        if z[0] == "-":
            off = -off
    epoch = calendar.timegm((y, mo, d, h, mi, s, 0, 0, 0)) - off
    return epoch * 10 ** 9 + int(frac or "0")


# ---------------------------------------------------------------------------
# CSV

def read_csv(data):
    """Returns a list of rows (lists of str)."""
    text = data.decode("utf-8")  # strict
    if text and not text.endswith("\n"):
        raise Bad("last CSV record is not terminated by a newline")
    return list(csv.reader(io.StringIO(text, newline=""), strict=True))


def decode_csv_row(row):
    """Documented columns -> {GoFieldName: value}."""
    if len(row) != len(CSV_COLUMNS):
        raise Bad("record has %d columns, documented are %d" % (len(row), len(CSV_COLUMNS)))
    out = {}
    for (name, unit), cell in zip(CSV_COLUMNS, row):
        try:
            if unit in ("unix_ns", "integer"):
                out[name] = parse_integer(cell)
            elif unit == "text":
                out[name] = cell
            elif unit == "base64":
                out[name] = parse_base64(cell)
            elif unit == "base64_http_headers":
                out[name] = parse_http_headers(parse_base64(cell))
        except Bad as e:
            out[name] = e
    return out


# ---------------------------------------------------------------------------
# JSON

def no_duplicates(pairs):
    d = {}
    for k, v in pairs:
        if k in d:
            raise Bad("duplicate key %r" % k)
        d[k] = v
    return d


def read_json(data):
    """Returns a list of objects, one per newline-terminated line."""
    if data and not data.endswith(b"\n"):
        raise Bad("last JSON line is not terminated by a newline")
    objs = []
    for n, line in enumerate(data.split(b"\n")[:-1]):
        try:
            objs.append(json.loads(line.decode("utf-8"), object_pairs_hook=no_duplicates))
        except (ValueError, Bad) as e:
            raise Bad("line %d is not a JSON document: %s" % (n + 1, e))
    return objs


def is_int(v):
    return isinstance(v, int) and not isinstance(v, bool)


def decode_json_value(kind, v):
    if kind == "string":
        if not isinstance(v, str):
            raise Bad("want a JSON string, have %s" % type(v).__name__)
        return v
    if kind in ("uint", "int", "duration"):
        if not is_int(v):
            raise Bad("want a JSON integer (nanoseconds for durations), have %r" % (v,))
        return v
    if kind == "time":
        if not isinstance(v, str):
            raise Bad("want an RFC 3339 string, have %s" % type(v).__name__)
        return parse_rfc3339_ns(v)
    if kind == "bytes":
        if v is None:
            return b""
        if not isinstance(v, str):
            raise Bad("want a base64 string or null, have %s" % type(v).__name__)
        return parse_base64(v)
    if kind == "header":
        if v is None:
            return {}
        if not isinstance(v, dict):
            raise Bad("want an object of string arrays or null, have %s" % type(v).__name__)
        out = {}
        for k, vals in v.items():
            if not isinstance(vals, list) or not all(isinstance(x, str) for x in vals):
                raise Bad("header %r is not an array of strings" % k)
            out[k] = vals
        return out
    if kind == "bool":
        if not isinstance(v, bool):
            raise Bad("want a JSON boolean")
        return v
    if kind == "float":
        if isinstance(v, bool) or not isinstance(v, (int, float)):
            raise Bad("want a JSON number")
        return float(v)
    raise Bad("unknown kind %r" % kind)


# ---------------------------------------------------------------------------
# comparison

class Stream:
    def __init__(self, sid, out):
        self.sid = sid
        self.out = out
        self.n = 0

    def mismatch(self, codec, record, field, want, got, msg):
        self.n += 1
        if self.n > MAX_MISMATCHES_PER_STREAM:
            return
        self.out.write(json.dumps({"id": self.sid, "codec": codec, "record": record, "field": field,
                                   "want": show(want), "got": show(got), "msg": msg}) + "\n")


def load_bytes(entry, codec):
    if entry.get(codec + "_hex") is not None:
        return bytes.fromhex(entry[codec + "_hex"])
    if entry.get(codec + "_path"):
        with open(entry[codec + "_path"], "rb") as f:
            return f.read()
    return None


def main():
    if len(sys.argv) != 2:
        sys.stderr.write(__doc__)
        return 2
    out = sys.stdout
    summary = {"streams": 0, "csv_records": 0, "json_records": 0, "fields_compared": 0}
    with open(sys.argv[1], "r", encoding="utf-8") as f:
        schema = json.loads(f.readline())["schema"]
        kinds = {fld["name"]: fld["kind"] for fld in schema}
        csv_names = [name for name, _ in CSV_COLUMNS]
        summary["csv_fields_without_documented_column"] = [fld["name"] for fld in schema if fld["name"] not in csv_names]
        summary["json_fields_without_documented_name"] = [fld["name"] for fld in schema if fld["name"] not in JSON_NAMES]
        json_name = {fld["name"]: JSON_NAMES.get(fld["name"], fld["json"]) for fld in schema}
        for line in f:
            if not line.strip():
                continue
            entry = json.loads(line)
            st = Stream(entry["id"], out)
            summary["streams"] += 1
            want = [{fld["name"]: expected(fld["kind"], v) for fld, v in zip(schema, rec)} for rec in entry["records"]]

            data = load_bytes(entry, "csv")
            if data is not None:
                try:
                    rows = read_csv(data)
                except (Bad, csv.Error, UnicodeDecodeError) as e:
                    st.mismatch("csv", -1, "<stream>", None, None, "not readable as CSV: %s" % e)
                    rows = None
                if rows is not None:
                    if len(rows) != len(want):
                        st.mismatch("csv", -1, "<count>", len(want), len(rows), "number of records")
                    for i, (row, w) in enumerate(zip(rows, want)):
                        summary["csv_records"] += 1
                        try:
                            got = decode_csv_row(row)
                        except Bad as e:
                            st.mismatch("csv", i, "<record>", len(CSV_COLUMNS), len(row), str(e))
                            continue
                        for name in csv_names:
                            if name not in w:
                                continue  # field no longer exists in the struct: nothing to compare with
                            summary["fields_compared"] += 1
                            g = got[name]
                            if isinstance(g, Bad):
                                st.mismatch("csv", i, name, w[name], None, "column %d (%s): %s" % (csv_names.index(name) + 1, name, g))
                            elif g != w[name]:
                                st.mismatch("csv", i, name, w[name], g, "column %d (%s) differs from the original" % (csv_names.index(name) + 1, name))

            data = load_bytes(entry, "json")
            if data is not None:
                try:
                    objs = read_json(data)
                except (Bad, UnicodeDecodeError) as e:
                    st.mismatch("json", -1, "<stream>", None, None, "not readable as JSON lines: %s" % e)
                    objs = None
                if objs is not None:
                    if len(objs) != len(want):
                        st.mismatch("json", -1, "<count>", len(want), len(objs), "number of records")
                    for i, (obj, w) in enumerate(zip(objs, want)):
                        summary["json_records"] += 1
                        if not isinstance(obj, dict):
                            st.mismatch("json", i, "<record>", "object", type(obj).__name__, "line is not a JSON object")
                            continue
                        names = set(json_name.values())
                        for k in sorted(set(obj) - names):
                            st.mismatch("json", i, "<names>", None, k, "undocumented field name %r" % k)
                        for name in w:
                            jn = json_name[name]
                            summary["fields_compared"] += 1
                            if jn not in obj:
                                st.mismatch("json", i, name, w[name], None, "documented field %r is missing" % jn)
                                continue
                            try:
                                g = decode_json_value(kinds[name], obj[jn])
                            except Bad as e:
                                st.mismatch("json", i, name, w[name], None, "field %r: %s" % (jn, e))
                                continue
                            if g != w[name]:
                                st.mismatch("json", i, name, w[name], g, "field %r differs from the original" % jn)
    out.write(json.dumps({"summary": summary}) + "\n")
    return 0


if __name__ == "__main__":
    sys.exit(main())
